import HC.Worker.Lifespan
/-!
# HC.Worker.Run — `worker_serve` of both worker classes as one timed state machine

One `srv` operation is one atomic action of `worker_serve` (from one suspension to the next); `app` is one
scheduling of the lifespan task (`HC.Worker.Lifespan`); the other operations are the environment: clients
connecting and sending, request handlers finishing, the shutdown trigger, time.  Connections are abstracted to the
phase that decides what shutdown does with them.

Time is a virtual clock `now : Nat`.  `tick d` is enabled only when `worker_serve` has nothing to do at the
current instant (maximal progress) and `d` does not jump over a pending deadline (startup / graceful / shutdown
timeout, or the instant an in-flight request is due to finish) — the convention of DESIGN.md 3.2.

Source anchors: `asyncio/run.py` `worker_serve` (start-up order, the `finally:` exit path: `terminated.set()`,
`server.close()` (before 4c08dc8 also `await server.wait_closed()`: phase `closing`), `wait_for(gather(*server_tasks), graceful_timeout)`, `wait_for_shutdown()`,
`lifespan_task.cancel(); await lifespan_task`), `trio/run.py` (nurseries; `cancel_scope.deadline = now +
graceful_timeout`), both `tcp_server.py` (`ConnectionState(self.state.copy())`, idle task waiting on
`context.terminated`), `protocol/h11.py` `_maybe_recycle` (no recycling once terminated), `protocol/h2.py`
(terminated: new streams reset + `MAX_CONCURRENT_STREAMS = 0`, GOAWAY when the last stream ends),
both `worker_context.py` (`mark_request`).
-/
namespace HC.Worker

inductive Kind | h1 | h2 | ws
  deriving Repr, DecidableEq

inductive ConnPhase
  | idle                              -- HTTP/1 connection between requests (idle timer armed)
  | midHead                           -- part of a request head has arrived (idle timer still armed)
  | inRequest (due : Option Nat)      -- a request is in progress; its application finishes at instant `due` (`none`: never)
  | h2 (streams : Nat) (timer : Bool) -- HTTP/2 with `streams` requests in progress; `timer`: idle timer armed (matters when `streams = 0`)
  | ws                                -- WebSocket accepted and open
  deriving Repr, DecidableEq

/-- the idle task of this connection is waiting on `context.terminated` -/
def ConnPhase.hasIdleTimer : ConnPhase → Bool
  | .idle => true
  | .midHead => true
  | .h2 0 t => t
  | _ => false

/-- no request / stream / websocket is in progress -/
def ConnPhase.isIdle : ConnPhase → Bool
  | .idle => true
  | .midHead => true
  | .h2 0 _ => true
  | _ => false

/-- an HTTP/2 connection with a stream in progress -/
def ConnPhase.h2Busy : ConnPhase → Bool
  | .h2 (_ + 1) _ => true
  | _ => false

structure Conn where
  id : Nat
  phase : ConnPhase
  ref : Nat                           -- heap cell holding this connection's `ConnectionState` dict
  deriving Repr, DecidableEq

inductive Phase
  | booting                           -- lifespan task created, `wait_for_startup` not yet past its put
  | waitingStartup (since : Nat)
  | serving
  | closing                           -- inside `server.wait_closed()` (only runtimes with `waitClosedBlocksOnConnections`)
  | draining (since : Nat)            -- waiting for connection handlers under `graceful_timeout`
  | lifespanShutdown (since : Nat)
  | done
  | failed (e : ServeErr)
  deriving Repr, DecidableEq

def Phase.terminal : Phase → Bool
  | .done => true
  | .failed _ => true
  | _ => false

structure Cfg where
  startupTimeout : Nat
  shutdownTimeout : Nat
  gracefulTimeout : Nat
  maxRequests : Option Nat
  deriving Repr, DecidableEq

/-- what an outside observer can see, in order -/
inductive Ev
  | startupPut | shutdownPut
  | appRecv (m : LMsg) | appStartupComplete | appShutdownComplete | appLeft
  | warn
  | listening | accepted (id : Nat) | scope (id : Nat)
  | terminated
  | closedIdle (id : Nat) | delivered (id : Nat) | cancelled (id : Nat) | goaway (id : Nat)
  | refusedStream (id : Nat) | streamDone (id : Nat) | wsDone (id : Nat) | peerClosed (id : Nat)
  | returned | raised (e : ServeErr)
  deriving Repr, DecidableEq

abbrev KV := List (Nat × Nat)
def kvSet (kv : KV) (k v : Nat) : KV := (k, v) :: kv.filter (fun p => p.1 != k)

/-- Python dict objects (`LifespanState` / `ConnectionState`) as heap cells; cell 0 is the lifespan state -/
structure Mem where
  heap : Nat → KV := fun _ => []
  nextRef : Nat := 1
  serveRef : Option Nat := none       -- trio: the `ConnectionState(lifespan_state.copy())` made when serving starts

/-- ghost counters and instants (what the theorems and the harness speak about) -/
structure Ghost where
  startupPuts : Nat := 0
  shutdownPuts : Nat := 0
  shutdownPutAt : Option Nat := none
  triggerTime : Option Nat := none    -- instant `terminated` was set
  returnTime : Option Nat := none
  everListening : Bool := false
  accepts : Nat := 0
  scopes : Nat := 0
  acceptsAfterTerm : Nat := 0
  scopesAfterTerm : Nat := 0
  refusedStreams : Nat := 0

/-- ghost history: what became of the connections -/
structure Hist where
  closedIdle : List Nat := []
  delivered : List (Nat × Nat) := []               -- (connection, instant) of responses delivered in full
  cancelled : List (Nat × ConnPhase × Nat) := []   -- (connection, what it was doing, instant): cancelled when the grace period ran out
  aborted : List (Nat × ConnPhase × Nat) := []     -- … torn down because `worker_serve` failed
  goaway : List Nat := []

structure W where
  rt : Runtime
  cfg : Cfg
  phase : Phase := .booting
  life : Life
  listening : Bool := false
  conns : List Conn := []
  terminated : Bool := false          -- `context.terminated`
  triggerPending : Bool := false      -- `shutdown_trigger` returned or `context.terminate` is set
  requests : Nat := 0                 -- `context.requests`
  now : Nat := 0
  nextId : Nat := 0
  mem : Mem := {}
  g : Ghost := {}
  hist : Hist := {}
  log : List Ev := []

def W.init (rt : Runtime) (cfg : Cfg) (script : List LAct) (cap : Nat) : W :=
  { rt := rt, cfg := cfg, life := Life.init script cap }

/-- between the two `aclose()` checkpoints of a leaving trio lifespan task: `worker_serve` runs, but no client
    event and no timer fits in (two scheduler rounds) -/
def W.inExitWindow (s : W) : Bool := s.life.exiting.isSome

def W.findConn (s : W) (i : Nat) : Option Conn := s.conns.find? (fun c => c.id == i)
def W.setPhase (s : W) (i : Nat) (p : ConnPhase) : List Conn :=
  s.conns.map (fun c => if c.id = i then { c with phase := p } else c)
def W.dropConn (s : W) (i : Nat) : List Conn := s.conns.filter (fun c => c.id != i)

/-- what a peer sees of a handler that is cancelled: on runtimes where the cancelled handler still closes its streams
    (`h2CancelSaysGoaway`) an HTTP/2 connection with a stream in progress says GOAWAY first -/
def W.cancelEvents (s : W) (c : Conn) : List Ev :=
  if s.rt.h2CancelSaysGoaway && c.phase.h2Busy then [Ev.goaway c.id, Ev.cancelled c.id] else [Ev.cancelled c.id]

/-- every remaining handler is cancelled -/
def W.cancelAll (s : W) : W :=
  { s with hist := { s.hist with cancelled := s.hist.cancelled ++ s.conns.map (fun c => (c.id, c.phase, s.now)) },
           conns := [], log := s.log ++ s.conns.flatMap s.cancelEvents }

/-- `worker_serve` raises `e` (whatever is still running inside it is cancelled) -/
def W.fail (s : W) (e : ServeErr) : W :=
  { s with phase := .failed e, listening := false, g := { s.g with returnTime := some s.now },
           hist := { s.hist with aborted := s.hist.aborted ++ s.conns.map (fun c => (c.id, c.phase, s.now)) },
           conns := [], log := s.log ++ s.conns.map (fun c => Ev.cancelled c.id) ++ [.raised e] }

/-- sockets are wrapped / `start_server` is awaited: from now on connections are accepted -/
def W.enterServing (s : W) : W :=
  { s with phase := .serving, listening := true, g := { s.g with everListening := true }, log := s.log ++ [.listening],
           -- trio: `ConnectionState(lifespan_state.copy())` is built here, once
           mem := if s.rt.stateCopiedAtServe then
               { heap := fun r => if r = s.mem.nextRef then s.mem.heap 0 else s.mem.heap r,
                 serveRef := some s.mem.nextRef, nextRef := s.mem.nextRef + 1 }
             else s.mem }

/-- after `wait_for_startup()` returned -/
def W.afterStartup (s : W) : W :=
  if s.rt.taskDoneCheckOnly then
    match s.life.taskDone with
    | some (some e) => s.fail e          -- `if lifespan_task.done(): raise its exception`
    | _ => s.enterServing
  else s.enterServing

/-- the `finally:` of the serving block: `terminated.set()`, listeners closed; idle tasks wake and close -/
def W.beginShutdown (s : W) : W :=
  let gone := s.conns.filter (fun c => c.phase.hasIdleTimer)
  { s with terminated := true, listening := false, g := { s.g with triggerTime := some s.now },
           conns := s.conns.filter (fun c => !c.phase.hasIdleTimer),
           hist := { s.hist with closedIdle := s.hist.closedIdle ++ gone.map (·.id) },
           phase := if s.rt.waitClosedBlocksOnConnections then .closing else .draining s.now,
           log := s.log ++ [.terminated] ++ gone.map (fun c => Ev.closedIdle c.id) }

/-- the statements of the exit path, in the order `srvStep` performs them: `beginShutdown` is `terminated.set()` AND the
    closing of the listeners in one atomic action (`listening := false`: no `connect` is enabled from then on, so the set
    of handlers the drain waits for can only shrink), runtimes with `waitClosedBlocksOnConnections` then sit in
    `server.wait_closed()` (phase `closing`), then the bounded wait for the handlers (phase `draining`), then the put of
    `lifespan.shutdown` (`startLifespanShutdown`), then the lifespan task is cancelled and awaited (`finishServe`).
    `HC/Props/C14.lean` compares this list with the statement order read off asyncio `worker_serve`. -/
inductive ExitStmt | setTerminated | closeListeners | waitClosed | boundedDrain | lifespanShutdown | cancelLifespan | awaitLifespan
  deriving Repr, DecidableEq

def ExitStmt.name : ExitStmt → String
  | .setTerminated => "terminated.set"
  | .closeListeners => "server.close"
  | .waitClosed => "server.wait_closed"
  | .boundedDrain => "bounded_drain"
  | .lifespanShutdown => "wait_for_shutdown"
  | .cancelLifespan => "lifespan_task.cancel"
  | .awaitLifespan => "await lifespan_task"

def exitOrder (rt : Runtime) : List ExitStmt :=
  [.setTerminated, .closeListeners] ++ (if rt.waitClosedBlocksOnConnections then [.waitClosed] else []) ++
  [.boundedDrain, .lifespanShutdown, .cancelLifespan, .awaitLifespan]

/-- `lifespan_task.cancel(); await lifespan_task` (asyncio) / `lifespan_nursery.cancel_scope.cancel()` (trio:
    whatever the lifespan task is doing it is cancelled; an exception in flight inside its `finally` is replaced) -/
def W.finishServe (s : W) : W :=
  if s.rt.lifespanInNursery then
    match s.life.taskDone with
    | some (some e) => s.fail e
    | _ => { s with phase := .done, g := { s.g with returnTime := some s.now }, log := s.log ++ [.returned] }
  else
    match s.life.taskDone with
    | some (some e) => s.fail e
    | some none => { s with phase := .done, g := { s.g with returnTime := some s.now }, log := s.log ++ [.returned] }
    | none =>
      if s.rt.endCancelRaises then s.fail .cancelled
      else { s with phase := .done, g := { s.g with returnTime := some s.now }, log := s.log ++ [.returned] }

/-- `await lifespan.wait_for_shutdown()` up to its put (all handlers are gone) -/
def W.startLifespanShutdown (s : W) : Option W :=
  match s.life.put .shutdown with
  | .notSupported => some s.finishServe
  | .closed => some (s.fail .closedResource)
  | .full => none
  | .ok l => some { s with life := l, phase := .lifespanShutdown s.now,
                           g := { s.g with shutdownPuts := s.g.shutdownPuts + 1, shutdownPutAt := some s.now },
                           log := s.log ++ [.shutdownPut] }

/-- the next atomic action of `worker_serve`, if it can take one now -/
def W.srvStep (s : W) : Option W :=
  match s.phase with
  | .done => none
  | .failed _ => none
  | .booting =>
    if !s.life.started then none            -- asyncio `_started.wait()` / trio `nursery.start`
    else match s.life.put .startup with
      | .notSupported => some s.afterStartup
      | .closed => some (s.fail .closedResource)
      | .full => none
      | .ok l => some { s with life := l, phase := .waitingStartup s.now,
                               g := { s.g with startupPuts := s.g.startupPuts + 1 }, log := s.log ++ [.startupPut] }
  | .waitingStartup since =>
    if s.life.startup then some s.afterStartup
    else if since + s.cfg.startupTimeout ≤ s.now then some (s.fail (.lifespanTimeout .startup))
    else none
  | .serving =>
    -- (inside a lifespan task's exit window `worker_serve` cannot get as far as its `finally:`)
    if s.triggerPending && !s.inExitWindow then some s.beginShutdown else none
  | .closing =>
    if s.conns.isEmpty then some { s with phase := .draining s.now } else none
  | .draining since =>
    if s.conns.isEmpty then s.startLifespanShutdown
    else if since + s.cfg.gracefulTimeout ≤ s.now then
      -- the handlers are cancelled; `wait_for(gather(...))` then waits for the cancellation to complete, which it does as
      -- soon as one handler has finished (gather passes the first CancelledError on): never, if none of them can
      if s.rt.h2CancelDeadlocks && s.conns.all (fun c => c.phase.h2Busy) then none
      else s.cancelAll.startLifespanShutdown
    else none
  | .lifespanShutdown since =>
    if s.life.shutdown then some s.finishServe
    else if since + s.cfg.shutdownTimeout ≤ s.now then some (s.fail (.lifespanTimeout .shutdown))
    else none

/-- may the clock advance by `d` without jumping over a deadline? -/
def W.tickOk (s : W) (d : Nat) : Bool :=
  (match s.phase with
   | .waitingStartup since => decide (s.now + d ≤ since + s.cfg.startupTimeout)
   | .draining since => decide (s.now + d ≤ since + s.cfg.gracefulTimeout)
   | .lifespanShutdown since => decide (s.now + d ≤ since + s.cfg.shutdownTimeout)
   | _ => true) &&
  s.conns.all (fun c => match c.phase with
    | .inRequest (some due) => decide (s.now + d ≤ due)
    | _ => true)

/-- `context.mark_request()` -/
def W.markRequest (s : W) : W :=
  { s with requests := (match s.cfg.maxRequests with
             | none => s.requests
             | some _ => s.requests + 1),
           triggerPending := (match s.cfg.maxRequests with
             | none => s.triggerPending
             | some m => s.triggerPending || s.rt.recycleCmp.eval (s.requests + 1) m) }

/-- a new application instance is started on connection `i` -/
def W.newScope (s : W) (i : Nat) : W :=
  W.markRequest { s with g := { s.g with scopes := s.g.scopes + 1,
                                          scopesAfterTerm := s.g.scopesAfterTerm + (if s.terminated then 1 else 0) },
                         log := s.log ++ [Ev.scope i] }

/-- the record of a connection accepted now -/
def W.newConn (s : W) (k : Kind) : Conn :=
  { id := s.nextId, ref := s.mem.nextRef,
    phase := match k with
      | .h1 => .idle
      | .h2 => .h2 0 s.rt.h2PriorFreshIdleTimer
      | .ws => .ws }

/-- the dict a new connection copies: the serve-time snapshot (trio) or the live lifespan state (asyncio) -/
def W.stateSource (s : W) : Nat :=
  match s.mem.serveRef with
  | some r => r
  | none => 0

/-- the connection handler starts: `ConnectionState(self.state.copy())` -/
def W.accept (s : W) (k : Kind) : W :=
  let src := s.stateSource
  let c : Conn := s.newConn k
  { s with conns := s.conns ++ [c], nextId := s.nextId + 1,
           mem := { s.mem with nextRef := s.mem.nextRef + 1,
                               heap := fun r => if r = s.mem.nextRef then s.mem.heap src else s.mem.heap r },
           g := { s.g with accepts := s.g.accepts + 1,
                           acceptsAfterTerm := s.g.acceptsAfterTerm + (if s.terminated then 1 else 0) },
           log := s.log ++ [.accepted s.nextId] }

inductive Op
  | app                                   -- the lifespan task is scheduled
  | srv                                   -- `worker_serve` takes its next action
  | connect (k : Kind)                    -- a client connection is accepted (ws: handshake included)
  | partialHead (i : Nat)                 -- part of a request head arrives
  | request (i : Nat) (remaining : Option Nat)   -- a complete request head; its application needs `remaining` more time
  | newStream (i : Nat)                   -- HEADERS for a new HTTP/2 stream
  | progress (i : Nat)                    -- one HTTP/2 stream / the WebSocket application completes
  | finish (i : Nat)                      -- the request that is due delivers its response
  | clientClose (i : Nat)                 -- the peer goes away
  | trigger                               -- `shutdown_trigger()` returns
  | tick (d : Nat)
  | lifeWrite (k v : Nat)                 -- the lifespan application assigns `state[k] = v`
  | connWrite (i k v : Nat)               -- an application on connection `i` assigns `scope["state"][k] = v`
  deriving Repr, DecidableEq

def appEvents (l l' : Life) : List Ev :=
  (l'.recvd.drop l.recvd.length).map Ev.appRecv ++
  (if l'.completeSeen && !l.completeSeen then [Ev.appStartupComplete] else []) ++
  (if l'.shutdownCompleteSeen && !l.shutdownCompleteSeen then [Ev.appShutdownComplete] else []) ++
  (if l'.warnings != l.warnings then [Ev.warn] else []) ++
  (if l'.exited && !l.exited then [Ev.appLeft] else [])

def step (s : W) : Op → Option W
  | .app =>
    if s.phase.terminal then none           -- nothing is observed after `worker_serve` has ended
    else match s.life.appStep s.rt with
      | none => none
      | some l' =>
        let s1 : W := { s with life := l', log := s.log ++ appEvents s.life l' }
        -- trio: a lifespan task dying with an exception cancels the nursery around `worker_serve` at once
        match (if s.rt.lifespanInNursery then l'.taskDone else none) with
        | some (some e) => some (s1.fail e)
        | _ => some s1
  | .srv => s.srvStep
  | .connect k =>
    if s.listening && !s.terminated && !s.inExitWindow then
      some (if k = .ws then (s.accept k).newScope s.nextId else s.accept k)
    else none
  | .partialHead i =>
    match s.findConn i with
    | some c => if c.phase = .idle && !s.inExitWindow then some { s with conns := s.setPhase i .midHead } else none
    | none => none
  | .request i rem =>
    match s.findConn i with
    | some c =>
      if (c.phase = .idle || c.phase = .midHead) && !s.terminated && !s.inExitWindow then
        some (W.newScope { s with conns := s.setPhase i (.inRequest (rem.map (s.now + ·))) } i)
      else none
    | none => none
  | .newStream i =>
    match s.findConn i with
    | some c =>
      match c.phase with
      | .h2 k t =>
        if s.inExitWindow then none
        else if s.terminated then
          some { s with g := { s.g with refusedStreams := s.g.refusedStreams + 1 }, log := s.log ++ [.refusedStream i] }
        else some (W.newScope { s with conns := s.setPhase i (.h2 (k + 1) t) } i)
      | _ => none
    | none => none
  | .progress i =>
    match s.findConn i with
    | some c =>
      match c.phase with
      | .h2 (k + 1) t =>
        if k = 0 then
          if s.terminated then
            some { s with conns := s.dropConn i, log := s.log ++ [.streamDone i, .goaway i],
                          hist := { s.hist with goaway := s.hist.goaway ++ [i] } }
          else some { s with conns := s.setPhase i (.h2 0 true), log := s.log ++ [.streamDone i] }
        else some { s with conns := s.setPhase i (.h2 k t), log := s.log ++ [.streamDone i] }
      | .ws => some { s with conns := s.dropConn i, log := s.log ++ [.wsDone i] }
      | _ => none
    | none => none
  | .finish i =>
    match s.findConn i with
    | some c =>
      match c.phase with
      | .inRequest (some due) =>
        if due ≤ s.now then
          some { s with conns := if s.terminated then s.dropConn i else s.setPhase i .idle,
                        hist := { s.hist with delivered := s.hist.delivered ++ [(i, s.now)] },
                        log := s.log ++ [.delivered i] }
        else none
      | _ => none
    | none => none
  | .clientClose i =>
    match s.findConn i with
    | some _ => some { s with conns := s.dropConn i, log := s.log ++ [.peerClosed i] }
    | none => none
  | .trigger => some { s with triggerPending := true }
  | .tick d =>
    if s.srvStep.isSome || s.inExitWindow || !s.tickOk d then none
    else some { s with now := s.now + d }
  | .lifeWrite k v =>
    some { s with mem := { s.mem with heap := fun r => if r = 0 then kvSet (s.mem.heap 0) k v else s.mem.heap r } }
  | .connWrite i k v =>
    match s.findConn i with
    | some c =>
      some { s with mem := { s.mem with heap := fun r => if r = c.ref then kvSet (s.mem.heap c.ref) k v else s.mem.heap r } }
    | none => none

/-- run an operation list (every schedule is such a list) -/
abbrev run (s : W) (ops : List Op) : Option W := HC.runOps step s ops

end HC.Worker
